"""Minimal in-memory file layer + independent tnetstring stream reader for C39.

``MemFS`` is the "disk": a path -> bytearray map plus a directory set, an event log and a
fault plan.  ``MemFS.path_factory()`` returns a stand-in for ``pathlib.Path`` that offers what
``mitmproxy.addons.save`` uses (``.parent``, ``.mkdir(parents=, exist_ok=)``, ``.open(mode)``).
``open`` returns a *real* ``io.BufferedWriter`` on top of ``MemRaw`` so that buffering, flush,
close and error propagation are CPython's; faults are injected at the raw ``write`` level
(what the kernel would return).

Fault plan entries (all counters are global over the run, 1-based):
  {"kind": "eio",    "nth": n, "count": c}            raw writes n .. n+c-1 raise EIO, nothing written
  {"kind": "enospc", "nth": n, "partial": p, "count": c}
        raw write n stores only p bytes (short write); the next c raw writes raise ENOSPC,
        afterwards space is available again (c large = disk stays full)
  {"kind": "open",   "nth": n, "errno": "EACCES"}     the n-th open() raises
"""
from __future__ import annotations

import errno
import io
import posixpath


class MemRaw(io.RawIOBase):
    def __init__(self, fs: "MemFS", path: str, hid: int):
        super().__init__()
        self.fs = fs
        self.path = path
        self.hid = hid

    def writable(self):
        return True

    def readable(self):
        return False

    def seekable(self):
        return False

    def write(self, b):
        if self.closed:
            raise ValueError("write to closed file")
        return self.fs._raw_write(self, bytes(b))

    def close(self):
        if not self.closed:
            self.fs._closed(self)
        super().close()


class MemFS:
    def __init__(self, faults=None):
        self.files: dict[str, bytearray] = {}
        self.gen: dict[str, int] = {}          # bumped on every truncation / (re)creation
        self.dirs: set[str] = {"/"}
        self.events: list[tuple] = []          # (kind, path, detail)
        self.handles: list = []                # every BufferedWriter ever handed out
        self.n_open = 0
        self.n_write = 0
        self.fired: dict[str, int] = {}
        self.first_fault_seq: int | None = None   # value of ``self.seq`` when the first fault fired
        self.seq = 0                              # advanced by the harness (operation index)
        self.full_left = 0                        # remaining ENOSPC failures
        self.faults = [dict(f) for f in (faults or [])]
        self._hid = 0

    # ----------------------------------------------------------------- namespace
    @staticmethod
    def norm(p: str) -> str:
        p = posixpath.normpath(p)
        if not p.startswith("/"):
            p = "/cwd/" + p
        return p

    def add_dir(self, p: str):
        p = self.norm(p)
        while p not in self.dirs:
            self.dirs.add(p)
            p = posixpath.dirname(p)

    def add_file(self, p: str, data: bytes):
        p = self.norm(p)
        self.add_dir(posixpath.dirname(p))
        self.files[p] = bytearray(data)
        self.gen[p] = self.gen.get(p, 0) + 1

    def mkdir(self, p: str, parents: bool, exist_ok: bool):
        p = self.norm(p)
        if p in self.dirs:
            if exist_ok:
                return
            raise FileExistsError(errno.EEXIST, "File exists", p)
        if p in self.files:
            raise FileExistsError(errno.EEXIST, "File exists", p)
        parent = posixpath.dirname(p)
        if parent in self.files:
            raise NotADirectoryError(errno.ENOTDIR, "Not a directory", p)
        if parent not in self.dirs:
            if not parents:
                raise FileNotFoundError(errno.ENOENT, "No such file or directory", p)
            self.mkdir(parent, True, True)
        self.dirs.add(p)
        self.events.append(("mkdir", p, None))

    def open(self, p: str, mode: str):
        p = self.norm(p)
        self.n_open += 1
        for f in self.faults:
            if f.get("kind") == "open" and f.get("nth") == self.n_open:
                self._fire("open_" + f.get("errno", "EACCES").lower())
                code = getattr(errno, f.get("errno", "EACCES"))
                raise OSError(code, "injected open failure", p)
        if mode not in ("wb", "ab"):
            raise ValueError(f"MemFS: unsupported mode {mode!r}")
        if p in self.dirs:
            raise IsADirectoryError(errno.EISDIR, "Is a directory", p)
        parent = posixpath.dirname(p)
        # any ancestor that is a regular file
        a = parent
        while a != "/":
            if a in self.files:
                raise NotADirectoryError(errno.ENOTDIR, "Not a directory", p)
            a = posixpath.dirname(a)
        if parent not in self.dirs:
            raise FileNotFoundError(errno.ENOENT, "No such file or directory", p)
        if p not in self.files:
            self.files[p] = bytearray()
            self.gen[p] = self.gen.get(p, 0) + 1
            self.events.append(("create", p, mode))
        elif mode == "wb":
            had = len(self.files[p])
            self.files[p] = bytearray()
            self.gen[p] += 1
            self.events.append(("truncate", p, had))
        else:
            self.events.append(("open_append", p, len(self.files[p])))
        self._hid += 1
        raw = MemRaw(self, p, self._hid)
        bw = io.BufferedWriter(raw)
        self.handles.append(bw)
        return bw

    # ----------------------------------------------------------------- raw I/O
    def _fire(self, name: str):
        self.fired[name] = self.fired.get(name, 0) + 1
        if self.first_fault_seq is None:
            self.first_fault_seq = self.seq

    def _raw_write(self, raw: MemRaw, data: bytes) -> int:
        self.n_write += 1
        n = self.n_write
        if self.full_left > 0:
            self.full_left -= 1
            self._fire("enospc")
            raise OSError(errno.ENOSPC, "No space left on device")
        for f in self.faults:
            k = f.get("kind")
            if k == "eio" and f.get("nth", 0) <= n < f.get("nth", 0) + f.get("count", 1):
                self._fire("eio")
                raise OSError(errno.EIO, "Input/output error")
            if k == "enospc" and f.get("nth") == n:
                p = min(max(int(f.get("partial", 0)), 0), max(len(data) - 1, 0))
                self.full_left = int(f.get("count", 1))
                if p > 0:
                    self._store(raw, data[:p])
                    self._fire("short_write")
                    return p
                self.full_left -= 1
                self._fire("enospc")
                raise OSError(errno.ENOSPC, "No space left on device")
        self._store(raw, data)
        return len(data)

    def _store(self, raw: MemRaw, data: bytes):
        buf = self.files.get(raw.path)
        if buf is None:           # unlinked meanwhile: not modelled, recreate
            buf = self.files[raw.path] = bytearray()
            self.gen[raw.path] = self.gen.get(raw.path, 0) + 1
        buf += data
        self.events.append(("write", raw.path, len(data)))

    def _closed(self, raw: MemRaw):
        self.events.append(("close", raw.path, raw.hid))

    def open_handles(self):
        return [h for h in self.handles if not h.closed]

    # ----------------------------------------------------------------- pathlib stand-in
    def path_factory(self):
        fs = self

        class SimPath:
            __slots__ = ("p",)

            def __init__(self, p):
                self.p = str(p)

            @property
            def parent(self):
                return SimPath(posixpath.dirname(fs.norm(self.p)))

            def mkdir(self, mode=0o777, parents=False, exist_ok=False):
                fs.mkdir(self.p, parents, exist_ok)

            def open(self, mode="r", *a, **kw):
                return fs.open(self.p, mode)

            def __str__(self):
                return self.p

            def __fspath__(self):
                return self.p

        return SimPath


# ---------------------------------------------------------------------------
# independent tnetstring reader (format: <len>:<payload><tag>)
# ---------------------------------------------------------------------------
class Incomplete(Exception):
    pass


class Corrupt(Exception):
    pass


def tn_parse(data, pos: int = 0):
    """Parse one tnetstring value at ``pos``; returns (value, next_pos)."""
    n = len(data)
    i = pos
    while i < n and 48 <= data[i] <= 57:
        i += 1
        if i - pos > 12:
            raise Corrupt("length too long")
    if i == n:
        if i == pos and n > pos:
            raise Corrupt("no length")
        raise Incomplete()
    if i == pos or data[i] != 0x3A:
        raise Corrupt("no length prefix")
    ln = int(bytes(data[pos:i]))
    start = i + 1
    end = start + ln
    if end >= n:
        raise Incomplete()
    tag = data[end]
    payload = bytes(data[start:end])
    if tag == 0x2C:      # ,
        val = payload
    elif tag == 0x3B:    # ;
        val = payload.decode("utf-8", "surrogateescape")
    elif tag == 0x23:    # #
        val = int(payload)
    elif tag == 0x5E:    # ^
        val = float(payload)
    elif tag == 0x21:    # !
        if payload not in (b"true", b"false"):
            raise Corrupt("bad bool")
        val = payload == b"true"
    elif tag == 0x7E:    # ~
        if payload:
            raise Corrupt("bad null")
        val = None
    elif tag == 0x5D:    # ]
        val = []
        p = 0
        while p < len(payload):
            try:
                v, p = tn_parse(payload, p)
            except Incomplete:
                raise Corrupt("truncated list item")
            val.append(v)
    elif tag == 0x7D:    # }
        val = {}
        p = 0
        while p < len(payload):
            try:
                k, p = tn_parse(payload, p)
                v, p = tn_parse(payload, p)
            except Incomplete:
                raise Corrupt("truncated dict item")
            val[k] = v
    else:
        raise Corrupt(f"bad tag {tag!r}")
    return val, end + 1


def tn_dump(v) -> bytes:
    """Encoder for the pre-existing content we plant in files (independent of mitmproxy)."""
    if isinstance(v, bool):
        p, t = (b"true" if v else b"false"), b"!"
    elif isinstance(v, int):
        p, t = str(v).encode(), b"#"
    elif isinstance(v, bytes):
        p, t = v, b","
    elif isinstance(v, str):
        p, t = v.encode(), b";"
    elif v is None:
        p, t = b"", b"~"
    elif isinstance(v, list):
        p, t = b"".join(tn_dump(x) for x in v), b"]"
    elif isinstance(v, dict):
        p, t = b"".join(tn_dump(k) + tn_dump(x) for k, x in v.items()), b"}"
    else:
        raise TypeError(type(v))
    return str(len(p)).encode() + b":" + p + t


def parse_stream(data, pos: int = 0):
    """Returns (values, next_pos, status) with status in {"clean", "incomplete", "corrupt"}."""
    out = []
    n = len(data)
    while pos < n:
        try:
            v, pos = tn_parse(data, pos)
        except Incomplete:
            return out, pos, "incomplete"
        except (Corrupt, ValueError, UnicodeDecodeError):
            return out, pos, "corrupt"
        out.append(v)
    return out, pos, "clean"
